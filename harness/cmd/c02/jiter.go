package main

import (
	"context"
	"fmt"
	"io"
	"os"
	"os/exec"
	"time"

	"github.com/logrange/logrange/api"
	"github.com/logrange/logrange/pkg/model"
	"github.com/logrange/logrange/pkg/utils/verifhook"
	"github.com/logrange/range/pkg/records/chunk"
	"verifharness/internal/lrsrv"
	"verifharness/internal/vh"
)

// sectionHullRace is the deterministic replay of the schedule-dependent finding F46: the writer is parked between
// Journal.Write (records become readable with the next flush) and onWriteCIndex (hull / index update).
//
//	fresh  RANGE queries issued in between (new cursors: their first status request runs SyncChunks — since fix a2ca477
//	       it drops the index entry that is older than its chunk and re-derives the hull from the chunk)
//	held   a server-held cursor that already has a status for the chunk is continued in between (no SyncChunks: the
//	       status is recomputed from GetRecordsInfo only) and again after the writer has finished
func sectionHullRace() {
	sec := res.Section("hullrace", "system-correspondence",
		"deterministic schedule: batch A (ts 100…) written and indexed; the writer of batch B (ts 200…, sizes {1, 10, 300}) is parked at the hook partition.write.beforeCIndex and the harness waits until B is readable. Variant fresh: RANGE [200:], [mid:mid+2], [:150] as new queries. Variant held: a cursor cached by the server (Limit above QueryMaxLimit), opened on RANGE [200:] before B and read to end of data, is continued by ReqId while the writer is parked and once more after the writer has notified the index. IMPL vs SPEC (filtered unbounded read) vs MODEL (journal updated, chunk index not yet / notified); non-trivial = every query or page")
	if !verifhook.Enabled {
		res.Note("hullrace: hooks are not compiled in")
		res.Done(sec)
		return
	}
	for _, held := range []bool{false, true} {
		for _, nb := range []int{1, 10, 300} {
			runHullRace(sec, nb, held)
		}
	}
	for _, nb := range []int{1, 10} {
		runDropRace(sec, nb)
	}
	for _, nb := range []int{1, 10} {
		runForgetRace(sec, nb)
	}
	for _, n := range []int{250, 300} {
		runReorderRace(sec, n, false)
		runReorderRace(sec, n, true)
		runLightFillFailure(sec, n)
	}
	res.Done(sec)
}

// runDropRace: regression case for the first shape of the stale-entry repair (a2ca477, corrected by 7ea0278): syncChunks dropped
// LIVE entries inside F46's window; when the writer's onWrite ran between the reader's two critical sections it found no entry for
// the chunk and created one from the last batch's hull only — every older event of the chunk was hidden until the background
// rebuild had merged the scanned hull (seen as unattributed losses in the free-running race section). Schedule: A indexed; writer W of B parked before onWriteCIndex, B readable; reader R (a new
// RANGE query over A's timestamps) runs syncChunks' first critical section — the entry, older than its chunk, is dropped —
// and is parked before the second one; W continues: onWrite finds no entry for the chunk, creates one from B's hull only
// (firstRec > 0 → corrupted, background rebuild requested — parked); R continues and stores/reads W's entry. Until the
// rebuild has merged the scanned hull, the chunk's hull is B's: ranges over A return nothing.
func runDropRace(sec *vh.Section, nb int) {
	dir := lrsrv.NewDir()
	defer os.RemoveAll(dir)
	srv, err := lrsrv.Start(dir, lrsrv.Opts{MaxChunkSize: 250000, NoRPC: true})
	if err != nil {
		res.Note("hullrace/drop: %v", err)
		return
	}
	defer srv.Stop()
	defer verifhook.Reset()
	r := &sysRun{h: history{ChunkSize: 250000, Regime: "strict"}, srv: srv, ctx: context.Background(), sec: sec, section: "hullrace"}
	rng := vh.NewRng(int64(nb))
	r.ask("rw.reset 250000", func(string) {})
	if !r.doWrite(op{Kind: "write", Segs: []seg{{T: 100, N: 10, D: 1}}}, rng) {
		return
	}
	arrivedW, gateW := make(chan struct{}, 1), make(chan struct{})
	verifhook.Set("partition.write.beforeCIndex", func() { arrivedW <- struct{}{}; <-gateW })
	bts := expand([]seg{{T: 200, N: nb, D: 1}})
	doneW := make(chan struct{})
	go func() {
		defer close(doneW)
		evs := make([]model.LogEvent, len(bts))
		for i, t := range bts {
			evs[i] = model.LogEvent{Timestamp: t, Msg: []byte(fmt.Sprintf("%06d", 10+i))}
		}
		srv.Parts.Write(context.Background(), tags, &wit{evs: evs}, true)
	}()
	select {
	case <-arrivedW:
	case <-time.After(5 * time.Second):
		res.Note("hullrace/drop: the writer did not reach the hook")
		close(gateW)
		<-doneW
		return
	}
	verifhook.Set("partition.write.beforeCIndex", nil)
	r.allTs = append(r.allTs, bts...)
	r.batches = append(r.batches, bts)
	r.full = nil
	if !r.waitFlushed() {
		res.Note("hullrace/drop: batch B did not become readable")
		close(gateW)
		<-doneW
		return
	}
	r.ask("rw.writenoindex "+modelSpec(bts), func(string) {})
	// the reader: parked between the two critical sections of its syncChunks
	arrivedR, gateR := make(chan struct{}, 1), make(chan struct{})
	var once bool
	verifhook.Set("tmindex.syncChunks.betweenLocks", func() {
		if !once {
			once = true
			arrivedR <- struct{}{}
			<-gateR
		}
	})
	gateReb := make(chan struct{})
	verifhook.Set("partition.tmirebuilder.beforeServe", func() { <-gateReb })
	lo, hi := i64p(100), i64p(105)
	q := rangeQuery(lo, hi)
	var pre preResult
	doneR := make(chan struct{})
	go func() {
		defer close(doneR)
		pre.seqs, pre.tss, pre.err = r.runQuery(q, 10000, false)
	}()
	select {
	case <-arrivedR:
	case <-time.After(5 * time.Second):
		res.Note("hullrace/drop: the reader did not reach the hook between syncChunks' critical sections")
		close(gateR)
		close(gateW)
		close(gateReb)
		<-doneW
		<-doneR
		return
	}
	r.ask("rw.dropstale", func(string) {})
	close(gateW) // the writer's onWrite runs now: no entry for the chunk
	<-doneW
	r.ask("rw.notify", func(string) {})
	close(gateR)
	<-doneR
	verifhook.Set("tmindex.syncChunks.betweenLocks", nil)
	// no finding belongs to this schedule any more: a loss here means the regression of a2ca477 (repaired by 7ea0278) is back
	r.pre = &pre
	r.doQuery(op{Kind: "query", Lo: lo, Hi: hi}, false) // the parked reader's own result
	r.doQuery(op{Kind: "query", Lo: lo, Hi: hi}, false) // a new query while the rebuild has not run
	r.doQuery(op{Kind: "query", Hi: i64p(150)}, false)
	close(gateReb)
	verifhook.Set("partition.tmirebuilder.beforeServe", nil)
	time.Sleep(5 * time.Millisecond)
	r.waitIdle()
	r.ask("rw.rebuild all", r.linkCheck())
	r.schedFinding = ""
	r.doQuery(op{Kind: "query", Lo: lo, Hi: hi}, false) // after the background rebuild: everything is back
	r.doQuery(op{Kind: "query", Hi: i64p(150)}, false)
	ans, err := vh.Batch(args.Driver, r.lines)
	if err != nil {
		res.Note("hullrace/drop: driver: %v", err)
	}
	for i := range ans {
		r.checks[i](ans[i])
	}
}

func runHullRace(sec *vh.Section, nb int, held bool) {
	dir := lrsrv.NewDir()
	defer os.RemoveAll(dir)
	srv, err := lrsrv.Start(dir, lrsrv.Opts{MaxChunkSize: 250000, NoRPC: true})
	if err != nil {
		res.Note("hullrace: %v", err)
		return
	}
	defer srv.Stop()
	h := history{ChunkSize: 250000, Regime: "strict"}
	r := &sysRun{h: h, srv: srv, ctx: context.Background(), sec: sec, section: "hullrace"}
	rng := vh.NewRng(int64(nb))
	r.ask("rw.reset 250000", func(string) {})
	a := op{Kind: "write", Segs: []seg{{T: 100, N: 10, D: 1}}}
	ok := r.doWrite(a, rng)
	in := map[string]interface{}{"variant": map[bool]string{false: "fresh", true: "held"}[held], "batch_b": nb}
	// held variant: the cursor exists (and holds a status of the chunk) before B is written
	var req *api.QueryRequest
	var all []int
	page := func(step string) {
		qr, err := srv.Querier.Query(r.ctx, req)
		if err == io.EOF && qr != nil {
			err = nil
		}
		if err != nil || qr == nil {
			res.SpecFail(vh.SpecFailure{Section: "hullrace", Kind: "query-error", Input: in, Impl: fmt.Sprint(err), Spec: "page", What: "continuing the held cursor failed"})
			return
		}
		var pg []int
		for _, e := range qr.Events {
			pg = append(pg, seqOfMsg(e.Message))
		}
		all = append(all, pg...)
		var spec []int
		for s, t := range r.allTs {
			if t >= 200 {
				spec = append(spec, s)
			}
		}
		pgS, allS, specS := runsOf(pg), runsOf(all), runsOf(spec)
		res.Eval(sec, fmt.Sprint("held", nb, step))
		r.ask("c.page 10000", func(ans string) {
			eq := ans == pgS
			if !eq {
				res.Mismatch(vh.Mismatch{Section: "hullrace", Function: "held RANGE cursor, page " + step, Input: in, Impl: pgS, Model: ans})
			}
			if allS != specS {
				finding := ""
				if eq {
					finding = "F46"
				}
				res.Dist(sec, "loss:held:"+step+":"+finding)
				res.SpecFail(vh.SpecFailure{Section: "hullrace", Kind: "hidden-event", Input: in, Impl: short(allS), Spec: short(specS), Model: ans, ImplEqModel: eq, Finding: finding,
					What: fmt.Sprintf("a held RANGE [200:] cursor continued %s delivered %s in total, the filtered unbounded read has %s", step, short(allS), short(specS))})
			}
		})
		nr := qr.NextQueryRequest
		nr.Limit = 10001
		req = &nr
	}
	if held && ok {
		req = &api.QueryRequest{Query: rangeQuery(i64p(200), nil), Limit: 10001}
		r.ask("c.open 200 none", func(string) {})
		page("before B is written")
	}
	arrived := make(chan struct{}, 1)
	gate := make(chan struct{})
	verifhook.Set("partition.write.beforeCIndex", func() {
		arrived <- struct{}{}
		<-gate
	})
	bts := expand([]seg{{T: 200, N: nb, D: 1}})
	doneW := make(chan struct{})
	go func() {
		defer close(doneW)
		evs := make([]model.LogEvent, len(bts))
		for i, t := range bts {
			evs[i] = model.LogEvent{Timestamp: t, Msg: []byte(fmt.Sprintf("%06d", 10+i))}
		}
		srv.Parts.Write(context.Background(), tags, &wit{evs: evs}, true)
	}()
	parked := false
	select {
	case <-arrived:
		parked = true
	case <-time.After(5 * time.Second):
		res.Note("hullrace: the writer did not reach the hook")
	}
	verifhook.Set("partition.write.beforeCIndex", nil)
	released := false
	if ok && parked {
		r.allTs = append(r.allTs, bts...)
		r.batches = append(r.batches, bts)
		r.full = nil
		if r.waitFlushed() {
			r.ask("rw.writenoindex "+modelSpec(bts), func(string) {})
			if held {
				page("while the writer is parked before the index notification")
				close(gate)
				released = true
				<-doneW
				r.waitIdle()
				r.ask("rw.notify", func(string) {})
				page("after the writer has notified the index")
			} else {
				parkedQueries := []op{{Kind: "query", Lo: i64p(200)}, {Kind: "query", Lo: i64p(200 + int64(nb)/2), Hi: i64p(200 + int64(nb)/2 + 2)}, {Kind: "query", Hi: i64p(150)}}
				for _, q := range parkedQueries {
					r.hullRace = true
					r.doQuery(q, false)
				}
			}
		} else {
			res.Note("hullrace: batch B did not become readable while its writer was parked")
		}
	}
	if !released {
		close(gate)
		<-doneW
	}
	ans, err := vh.Batch(args.Driver, r.lines)
	if err != nil {
		res.Note("hullrace: driver: %v", err)
	}
	for i := range ans {
		r.checks[i](ans[i])
	}
}

// runForgetRace is the deterministic replay of finding F53: a reader's syncChunks works on the chunk list it was given; when a
// new chunk is created and notified while the reader is between syncChunks' two critical sections, the second one treats the
// new chunk's entry as removed and forgets it (with its tree). The writer's next notification for that chunk finds no entry,
// creates one from its own batch only (firstRec > 0 → corrupted → background rebuild): until the rebuild has merged the
// scanned hull, the chunk's hull is the last batch's and RANGE queries over the chunk's earlier events return nothing.
func runForgetRace(sec *vh.Section, nb int) {
	dir := lrsrv.NewDir()
	defer os.RemoveAll(dir)
	srv, err := lrsrv.Start(dir, lrsrv.Opts{MaxChunkSize: 5020, NoRPC: true}) // 251 records of 20 bytes per chunk
	if err != nil {
		res.Note("hullrace/forget: %v", err)
		return
	}
	defer srv.Stop()
	defer verifhook.Reset()
	r := &sysRun{h: history{ChunkSize: 5020, Regime: "strict"}, srv: srv, ctx: context.Background(), sec: sec, section: "hullrace"}
	rng := vh.NewRng(int64(nb))
	r.ask("rw.reset 5020", func(string) {})
	if !r.doWrite(op{Kind: "write", Segs: []seg{{T: 100, N: 251, D: 1}}}, rng) { // fills chunk 1 exactly
		return
	}
	if len(r.chunks()) != 1 {
		res.Note("hullrace/forget: unexpected chunk layout (%d chunks)", len(r.chunks()))
		return
	}
	// the reader: a new query, parked between the two critical sections of its syncChunks (chunk list = [chunk 1])
	arrivedR, gateR := make(chan struct{}, 1), make(chan struct{})
	var once bool
	verifhook.Set("tmindex.syncChunks.betweenLocks", func() {
		if !once {
			once = true
			arrivedR <- struct{}{}
			<-gateR
		}
	})
	doneR := make(chan struct{})
	go func() {
		defer close(doneR)
		// one page of 3 events: the query ends inside chunk 1 (a reader that walks on to the end of the journal would
		// re-derive the forgotten entry itself by its next syncChunks)
		srv.Querier.Query(r.ctx, &api.QueryRequest{Query: rangeQuery(i64p(100), i64p(105)), Limit: 3})
	}()
	select {
	case <-arrivedR:
	case <-time.After(5 * time.Second):
		res.Note("hullrace/forget: the reader did not reach the hook between syncChunks' critical sections")
		close(gateR)
		<-doneR
		return
	}
	// batch B opens chunk 2 and is notified (the index now knows chunk 2)
	bSegs := []seg{{T: 1000, N: nb, D: 1}}
	if !r.doWrite(op{Kind: "write", Segs: bSegs}, rng) {
		close(gateR)
		<-doneR
		return
	}
	close(gateR) // the reader's second critical section: chunk 2 is not in its list → forgotten
	<-doneR
	verifhook.Set("tmindex.syncChunks.betweenLocks", nil)
	r.ask("rw.forgetchunk 2", func(string) {})
	// batch C: the writer's notification finds no entry for chunk 2; the rebuild it asks for is parked
	gateReb := make(chan struct{})
	verifhook.Set("partition.tmirebuilder.beforeServe", func() { <-gateReb })
	cts := expand([]seg{{T: 2000, N: 5, D: 1}})
	evs := make([]model.LogEvent, len(cts))
	for i, t := range cts {
		evs[i] = model.LogEvent{Timestamp: t, Msg: []byte(fmt.Sprintf("%06d", len(r.allTs)+i))}
	}
	if err := srv.Parts.Write(r.ctx, tags, &wit{evs: evs}, true); err != nil {
		res.Note("hullrace/forget: %v", err)
		close(gateReb)
		return
	}
	r.allTs = append(r.allTs, cts...)
	r.batches = append(r.batches, cts)
	r.full = nil
	if !r.waitFlushed() {
		close(gateReb)
		return
	}
	r.ask("rw.write "+modelSpec(cts), r.linkCheck())
	r.schedFinding = "F53"
	r.doQuery(op{Kind: "query", Lo: i64p(1000), Hi: i64p(1000 + int64(nb))}, false) // B's events: hidden behind C's hull
	r.doQuery(op{Kind: "query", Lo: i64p(900), Hi: i64p(1999)}, false)
	r.doQuery(op{Kind: "query", Lo: i64p(2000)}, false) // C's own events are delivered
	close(gateReb)
	verifhook.Set("partition.tmirebuilder.beforeServe", nil)
	time.Sleep(5 * time.Millisecond)
	r.waitIdle()
	r.ask("rw.autorebuild", r.linkCheck())
	r.schedFinding = ""
	r.doQuery(op{Kind: "query", Lo: i64p(1000), Hi: i64p(1000 + int64(nb))}, false) // after the background rebuild: back
	r.doQuery(op{Kind: "query", Lo: i64p(900), Hi: i64p(1999)}, false)
	ans, err := vh.Batch(args.Driver, r.lines)
	if err != nil {
		res.Note("hullrace/forget: driver: %v", err)
	}
	for i := range ans {
		r.checks[i](ans[i])
	}
}

// runReorderRace is the REGRESSION program of the repaired finding F85 (fix f6d29cf: onWrite ignores a late notification and
// never lowers Recs; the program must pass, a loss is tagged F85 = the defect is back). What it replayed: two writers of one partition; the journal orders their records
// (batch B before batch C) but the time-index notifications arrive in the other order. The late notification of B is merged
// into the tree behind C's point: block.addInterval keeps p1.ts = max(B.max, last.ts) = C's maximum but takes p1.idx = B's last
// record, so the last index point says "timestamp C.max at position B.last" and drops C's own point; lastRec and Recs go DOWN.
// While count > Recs the window stays open (a7caf30); after the next write Recs is exact again and GetPosForLessTime cuts the
// window at B's last record for every upper bound below C's maximum: C's in-range records are hidden (monotone data).
// writersSerialised: set by the first reorder program that finds that a second writer of the partition cannot overtake a parked one
var writersSerialised bool

func runReorderRace(sec *vh.Section, n int, rebuildBetween bool) {
	if writersSerialised {
		res.Dist(sec, "reorder schedule unreachable: writers of a partition are serialised")
		return
	}
	dir := lrsrv.NewDir()
	defer os.RemoveAll(dir)
	srv, err := lrsrv.Start(dir, lrsrv.Opts{MaxChunkSize: 250000, NoRPC: true})
	if err != nil {
		res.Note("hullrace/reorder: %v", err)
		return
	}
	defer srv.Stop()
	defer verifhook.Reset()
	r := &sysRun{h: history{ChunkSize: 250000, Regime: "strict"}, srv: srv, ctx: context.Background(), sec: sec, section: "hullrace"}
	rng := vh.NewRng(int64(n))
	r.ask("rw.reset 250000", func(string) {})
	if !r.doWrite(op{Kind: "write", Segs: []seg{{T: 100, N: n, D: 1}}}, rng) { // A
		return
	}
	arrived, gate := make(chan struct{}, 1), make(chan struct{})
	var once bool
	verifhook.Set("partition.write.beforeCIndex", func() {
		if !once {
			once = true
			arrived <- struct{}{}
			<-gate
		}
	})
	bts := expand([]seg{{T: 1000, N: n, D: 1}})
	doneW := make(chan struct{})
	go func() {
		defer close(doneW)
		evs := make([]model.LogEvent, len(bts))
		for i, t := range bts {
			evs[i] = model.LogEvent{Timestamp: t, Msg: []byte(fmt.Sprintf("%06d", n+i))}
		}
		srv.Parts.Write(context.Background(), tags, &wit{evs: evs}, true)
	}()
	select {
	case <-arrived:
	case <-time.After(5 * time.Second):
		res.Note("hullrace/reorder: the first writer did not reach the hook")
		close(gate)
		<-doneW
		return
	}
	r.allTs = append(r.allTs, bts...)
	r.batches = append(r.batches, bts)
	r.full = nil
	if !r.waitFlushed() {
		close(gate)
		<-doneW
		return
	}
	r.ask("rw.writenoindex "+modelSpec(bts), func(string) {})
	// the second writer: batch C, written and notified while B's notification is parked. Since 3e8b3c3 Service.Write holds a
	// per-partition lock from Journal.Write to the index notification: a second writer cannot overtake, the schedule is not
	// reachable through Service.Write any more (the index-level statement stays: reordered_notifications_sound and the
	// obligations on the regenerated facts). The program detects that and ends.
	cDone := make(chan bool, 1)
	go func() { cDone <- r.doWrite(op{Kind: "write", Segs: []seg{{T: 2000, N: n, D: 1}}}, rng) }()
	select {
	case ok := <-cDone:
		if !ok {
			close(gate)
			<-doneW
			return
		}
	case <-time.After(3 * time.Second):
		writersSerialised = true
		res.Dist(sec, "reorder schedule unreachable: writers of a partition are serialised")
		close(gate)
		<-doneW
		<-cDone
		return
	}
	if rebuildBetween {
		// variant: the chunk's index is rebuilt (forced, synchronous) from all confirmed records — A, B, C — while B's
		// notification is still on the way; the rebuild resets lastRec to 0
		for _, c := range r.chunks() {
			r.srv.TsIdx.RebuildIndex(r.ctx, r.src, c, true)
		}
		r.ask("rw.rebuild all", func(string) {})
		r.schedFinding = "F-C02-901"
	}
	close(gate) // B's notification arrives late
	<-doneW
	r.ask("rw.notify", func(string) {})
	r.compareIndexState("late notification", rng)
	// count > Recs: the window is open, nothing is hidden yet
	r.doQuery(op{Kind: "query", Lo: i64p(2000), Hi: i64p(2010)}, false)
	r.doQuery(op{Kind: "query", Hi: i64p(2050)}, false)
	// the next write makes Recs exact again: the damaged index is used
	if !r.doWrite(op{Kind: "write", Segs: []seg{{T: 3000, N: n, D: 1}}}, rng) {
		return
	}
	if !rebuildBetween {
		r.schedFinding = "F85"
	}
	r.doQuery(op{Kind: "query", Lo: i64p(2000), Hi: i64p(2010)}, false)
	r.doQuery(op{Kind: "query", Hi: i64p(2050)}, false)
	r.doQuery(op{Kind: "query", Lo: i64p(1990), Hi: i64p(2100), Page: 97}, false)
	r.schedFinding = ""
	r.doQuery(op{Kind: "query", Lo: i64p(3000)}, false)
	ans, err := vh.Batch(args.Driver, r.lines)
	if err != nil {
		res.Note("hullrace/reorder: driver: %v", err)
	}
	for i := range ans {
		r.checks[i](ans[i])
	}
}

// failChunk: a chunk whose records cannot be read (an I/O error)
type failChunk struct{ chunk.Chunk }

func (failChunk) Iterator() (chunk.Iterator, error) {
	return nil, fmt.Errorf("verif: injected read error")
}

// runLightFillFailure is the REGRESSION program of the repaired finding F86 (fix 719d554: the second apply() hands what
// lightFill has read now to a known entry with Recs = 0; the program must pass, a loss is tagged F86 = the defect is back).
// What it replayed (lead "a failed lightFill leaves the hull [MaxInt64, 0]"): Crash image (no snapshot entry); the first SyncChunks cannot read the chunk's records: the chunk's
// Iterator() fails (an I/O error, e.g. no file descriptor left; a cancelled context does NOT make lightFill fail). The entry
// then carries [MaxInt64, 0] with Recs = 0, and it STAYS so: later SyncChunks read the two records again but syncChunks'
// second apply() puts the known entry back over the filled one. While count > Recs the repair a7caf30 keeps the window open
// (the queries in between must be complete); the next write makes the hull the hull of THAT batch alone with Recs = count,
// and every range below it loses the chunk's earlier records.
func runLightFillFailure(sec *vh.Section, n int) {
	const how = "io"
	dir := lrsrv.NewDir()
	defer os.RemoveAll(dir)
	srv, err := lrsrv.Start(dir, lrsrv.Opts{MaxChunkSize: 250000, NoRPC: true})
	if err != nil {
		res.Note("hullrace/lightfill: %v", err)
		return
	}
	r := &sysRun{h: history{ChunkSize: 250000, Regime: "strict"}, srv: srv, dir: dir, ctx: context.Background(), sec: sec, section: "hullrace"}
	defer func() { r.srv.Stop() }()
	rng := vh.NewRng(int64(n))
	r.ask("rw.reset 250000", func(string) {})
	if !r.doWrite(op{Kind: "write", Segs: []seg{{T: 100, N: n, D: 1}}}, rng) || !r.doWrite(op{Kind: "write", Segs: []seg{{T: 1000, N: n, D: 1}}}, rng) {
		return
	}
	if !r.waitIdle() {
		return
	}
	img := lrsrv.NewDir()
	os.RemoveAll(img)
	defer os.RemoveAll(img)
	if out, err := exec.Command("cp", "-a", dir, img).CombinedOutput(); err != nil {
		res.Note("hullrace/lightfill: crash image: %v %s", err, out)
		return
	}
	r.srv.Stop()
	if r.srv, err = lrsrv.Start(img, lrsrv.Opts{MaxChunkSize: 250000, NoRPC: true}); err != nil {
		res.Note("hullrace/lightfill: restart: %v", err)
		r.srv = srv
		return
	}
	r.jrnl = nil
	if !r.acquireJournal() {
		return
	}
	cks := r.chunks()
	bad := make(chunk.Chunks, len(cks))
	for i, c := range cks {
		bad[i] = failChunk{c}
	}
	r.srv.TsIdx.SyncChunks(r.ctx, r.src, bad)
	failed := r.implHull()
	in := fmt.Sprintf(`{"schedule":"lightfill-failure","n":%d,"how":%q}`, n, how)
	r.full = nil
	r.ask("rw.restart crash", func(string) {})
	r.ask("rw.failsync", func(string) {})
	cmpHull := func(what string) {
		hull := r.implHull()
		r.ask("rw.hull", func(ans string) {
			if ans != hull {
				res.Mismatch(vh.Mismatch{Section: "hullrace", Function: "chunk hulls (GetRecordsInfo) " + what, Input: in, Impl: short(hull), Model: short(ans)})
			}
		})
	}
	cmpHull("after a SyncChunks that could not read the records")
	r.ask("rw.sync", func(string) {}) // every new cursor runs SyncChunks
	// count > Recs = 0: the window is open, nothing is hidden
	r.doQuery(op{Kind: "query", Lo: i64p(150), Hi: i64p(160)}, false)
	r.doQuery(op{Kind: "query", Lo: i64p(1000), Hi: i64p(1000)}, false)
	r.doQuery(op{Kind: "query", Hi: i64p(1005)}, false)
	cmpHull("after a failed lightFill and the next queries (each of them runs SyncChunks)")
	if r.implHull() != failed {
		// a tree where the entry is filled again (proposed repair): the look-ups of the queries have asked for rebuilds; bring
		// both sides to the state that does not depend on when those ran
		if !r.waitIdle() {
			return
		}
		for _, c := range r.chunks() {
			r.srv.TsIdx.RebuildIndex(r.ctx, r.src, c, false)
		}
		if !r.waitIdle() {
			return
		}
		r.ask("rw.heal", func(string) {})
	}
	if !r.doWrite(op{Kind: "write", Segs: []seg{{T: 2000, N: n, D: 1}}}, rng) {
		return
	}
	r.schedFinding = "F86"
	r.doQuery(op{Kind: "query", Lo: i64p(150), Hi: i64p(160)}, false)
	r.doQuery(op{Kind: "query", Hi: i64p(1005)}, false)
	r.doQuery(op{Kind: "query", Lo: i64p(1990), Hi: i64p(2010), Page: 7}, false)
	r.schedFinding = ""
	r.doQuery(op{Kind: "query", Lo: i64p(2000)}, false)
	ans, err := vh.Batch(args.Driver, r.lines)
	if err != nil {
		res.Note("hullrace/lightfill: driver: %v", err)
	}
	for i := range ans {
		r.checks[i](ans[i])
	}
	if os.Getenv("C02_ONLY") != "" {
		fmt.Fprintf(os.Stderr, "lightfill failure n=%d how=%s: hull after failed fill %s ; at the end %s\n", n, how, failed, r.implHull())
	}
}

func sectionJIter(rng *vh.Rng) {}
