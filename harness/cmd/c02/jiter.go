package main

import (
	"context"
	"fmt"
	"os"
	"time"

	"github.com/logrange/logrange/pkg/model"
	"github.com/logrange/logrange/pkg/utils/verifhook"
	"verifharness/internal/lrsrv"
	"verifharness/internal/vh"
)

// sectionHullRace is the deterministic replay of the schedule-dependent finding F46: the writer is parked between
// Journal.Write (records become readable with the next flush) and onWriteCIndex (hull / index update); a RANGE query
// issued in between must still return the readable in-range events.
func sectionHullRace() {
	sec := res.Section("hullrace", "system-correspondence",
		"deterministic schedule: batch A (ts 100…) written and indexed; the writer of batch B (ts 200…) is parked at the hook partition.write.beforeCIndex, the harness waits until B is readable (unbounded read returns it), then queries RANGE [200:], [205:207], [:150] — IMPL vs SPEC (filtered unbounded read) vs MODEL (journal updated, chunk index not yet) — releases the writer and queries again; sizes of B from {1, 10, 300}; non-trivial = every query")
	if !verifhook.Enabled {
		res.Note("hullrace: hooks are not compiled in")
		res.Done(sec)
		return
	}
	for _, nb := range []int{1, 10, 300} {
		dir := lrsrv.NewDir()
		srv, err := lrsrv.Start(dir, lrsrv.Opts{MaxChunkSize: 250000, NoRPC: true})
		if err != nil {
			res.Note("hullrace: %v", err)
			os.RemoveAll(dir)
			continue
		}
		h := history{ChunkSize: 250000, Regime: "strict"}
		r := &sysRun{h: h, srv: srv, ctx: context.Background(), sec: sec, section: "hullrace"}
		rng := vh.NewRng(int64(nb))
		r.ask("rw.reset 250000", func(string) {})
		a := op{Kind: "write", Segs: []seg{{T: 100, N: 10, D: 1}}}
		ok := r.doWrite(a, rng)
		arrived := make(chan struct{}, 1)
		gate := make(chan struct{})
		verifhook.Set("partition.write.beforeCIndex", func() {
			arrived <- struct{}{}
			<-gate
		})
		bts := expand([]seg{{T: 200, N: nb, D: 1}})
		doneW := make(chan struct{})
		go func() {
			defer close(doneW)
			evs := make([]model.LogEvent, len(bts))
			for i, t := range bts {
				evs[i] = model.LogEvent{Timestamp: t, Msg: []byte(fmt.Sprintf("%06d", 10+i))}
			}
			srv.Parts.Write(context.Background(), tags, &wit{evs: evs}, true)
		}()
		parked := false
		select {
		case <-arrived:
			parked = true
		case <-time.After(5 * time.Second):
			res.Note("hullrace: the writer did not reach the hook")
		}
		verifhook.Set("partition.write.beforeCIndex", nil)
		if ok && parked {
			r.allTs = append(r.allTs, bts...)
			r.batches = append(r.batches, bts)
			r.full = nil
			if r.waitFlushed() {
				r.ask("rw.writenoindex "+modelSpec(bts), func(string) {})
				parkedQueries := []op{{Kind: "query", Lo: i64p(200)}, {Kind: "query", Lo: i64p(200 + int64(nb)/2), Hi: i64p(200 + int64(nb)/2 + 2)}, {Kind: "query", Hi: i64p(150)}}
				for _, q := range parkedQueries {
					r.hullRace = true
					r.doQuery(q, false)
				}
			} else {
				res.Note("hullrace: batch B did not become readable while its writer was parked")
			}
		}
		close(gate)
		<-doneW
		srv.Stop()
		os.RemoveAll(dir)
		ans, err := vh.Batch(args.Driver, r.lines)
		if err != nil {
			res.Note("hullrace: driver: %v", err)
		}
		for i := range ans {
			r.checks[i](ans[i])
		}
	}
	res.Done(sec)
}

func sectionJIter(rng *vh.Rng) {}
