package main

import (
	"context"
	"fmt"
	"io"
	"os"
	"time"

	"github.com/logrange/logrange/api"
	"github.com/logrange/logrange/pkg/model"
	"github.com/logrange/logrange/pkg/utils/verifhook"
	"verifharness/internal/lrsrv"
	"verifharness/internal/vh"
)

// sectionHullRace is the deterministic replay of the schedule-dependent finding F46: the writer is parked between
// Journal.Write (records become readable with the next flush) and onWriteCIndex (hull / index update).
//
//	fresh  RANGE queries issued in between (new cursors: their first status request runs SyncChunks — since fix a2ca477
//	       it drops the index entry that is older than its chunk and re-derives the hull from the chunk)
//	held   a server-held cursor that already has a status for the chunk is continued in between (no SyncChunks: the
//	       status is recomputed from GetRecordsInfo only) and again after the writer has finished
func sectionHullRace() {
	sec := res.Section("hullrace", "system-correspondence",
		"deterministic schedule: batch A (ts 100…) written and indexed; the writer of batch B (ts 200…, sizes {1, 10, 300}) is parked at the hook partition.write.beforeCIndex and the harness waits until B is readable. Variant fresh: RANGE [200:], [mid:mid+2], [:150] as new queries. Variant held: a cursor cached by the server (Limit above QueryMaxLimit), opened on RANGE [200:] before B and read to end of data, is continued by ReqId while the writer is parked and once more after the writer has notified the index. IMPL vs SPEC (filtered unbounded read) vs MODEL (journal updated, chunk index not yet / notified); non-trivial = every query or page")
	if !verifhook.Enabled {
		res.Note("hullrace: hooks are not compiled in")
		res.Done(sec)
		return
	}
	for _, held := range []bool{false, true} {
		for _, nb := range []int{1, 10, 300} {
			runHullRace(sec, nb, held)
		}
	}
	res.Done(sec)
}

func runHullRace(sec *vh.Section, nb int, held bool) {
	dir := lrsrv.NewDir()
	defer os.RemoveAll(dir)
	srv, err := lrsrv.Start(dir, lrsrv.Opts{MaxChunkSize: 250000, NoRPC: true})
	if err != nil {
		res.Note("hullrace: %v", err)
		return
	}
	defer srv.Stop()
	h := history{ChunkSize: 250000, Regime: "strict"}
	r := &sysRun{h: h, srv: srv, ctx: context.Background(), sec: sec, section: "hullrace"}
	rng := vh.NewRng(int64(nb))
	r.ask("rw.reset 250000", func(string) {})
	a := op{Kind: "write", Segs: []seg{{T: 100, N: 10, D: 1}}}
	ok := r.doWrite(a, rng)
	in := map[string]interface{}{"variant": map[bool]string{false: "fresh", true: "held"}[held], "batch_b": nb}
	// held variant: the cursor exists (and holds a status of the chunk) before B is written
	var req *api.QueryRequest
	var all []int
	page := func(step string) {
		qr, err := srv.Querier.Query(r.ctx, req)
		if err == io.EOF && qr != nil {
			err = nil
		}
		if err != nil || qr == nil {
			res.SpecFail(vh.SpecFailure{Section: "hullrace", Kind: "query-error", Input: in, Impl: fmt.Sprint(err), Spec: "page", What: "continuing the held cursor failed"})
			return
		}
		var pg []int
		for _, e := range qr.Events {
			pg = append(pg, seqOfMsg(e.Message))
		}
		all = append(all, pg...)
		var spec []int
		for s, t := range r.allTs {
			if t >= 200 {
				spec = append(spec, s)
			}
		}
		pgS, allS, specS := runsOf(pg), runsOf(all), runsOf(spec)
		res.Eval(sec, fmt.Sprint("held", nb, step))
		r.ask("c.page 10000", func(ans string) {
			eq := ans == pgS
			if !eq {
				res.Mismatch(vh.Mismatch{Section: "hullrace", Function: "held RANGE cursor, page " + step, Input: in, Impl: pgS, Model: ans})
			}
			if allS != specS {
				finding := ""
				if eq {
					finding = "F46"
				}
				res.Dist(sec, "loss:held:"+step+":"+finding)
				res.SpecFail(vh.SpecFailure{Section: "hullrace", Kind: "hidden-event", Input: in, Impl: short(allS), Spec: short(specS), Model: ans, ImplEqModel: eq, Finding: finding,
					What: fmt.Sprintf("a held RANGE [200:] cursor continued %s delivered %s in total, the filtered unbounded read has %s", step, short(allS), short(specS))})
			}
		})
		nr := qr.NextQueryRequest
		nr.Limit = 10001
		req = &nr
	}
	if held && ok {
		req = &api.QueryRequest{Query: rangeQuery(i64p(200), nil), Limit: 10001}
		r.ask("c.open 200 none", func(string) {})
		page("before B is written")
	}
	arrived := make(chan struct{}, 1)
	gate := make(chan struct{})
	verifhook.Set("partition.write.beforeCIndex", func() {
		arrived <- struct{}{}
		<-gate
	})
	bts := expand([]seg{{T: 200, N: nb, D: 1}})
	doneW := make(chan struct{})
	go func() {
		defer close(doneW)
		evs := make([]model.LogEvent, len(bts))
		for i, t := range bts {
			evs[i] = model.LogEvent{Timestamp: t, Msg: []byte(fmt.Sprintf("%06d", 10+i))}
		}
		srv.Parts.Write(context.Background(), tags, &wit{evs: evs}, true)
	}()
	parked := false
	select {
	case <-arrived:
		parked = true
	case <-time.After(5 * time.Second):
		res.Note("hullrace: the writer did not reach the hook")
	}
	verifhook.Set("partition.write.beforeCIndex", nil)
	released := false
	if ok && parked {
		r.allTs = append(r.allTs, bts...)
		r.batches = append(r.batches, bts)
		r.full = nil
		if r.waitFlushed() {
			r.ask("rw.writenoindex "+modelSpec(bts), func(string) {})
			if held {
				page("while the writer is parked before the index notification")
				close(gate)
				released = true
				<-doneW
				r.waitIdle()
				r.ask("rw.notify", func(string) {})
				page("after the writer has notified the index")
			} else {
				parkedQueries := []op{{Kind: "query", Lo: i64p(200)}, {Kind: "query", Lo: i64p(200 + int64(nb)/2), Hi: i64p(200 + int64(nb)/2 + 2)}, {Kind: "query", Hi: i64p(150)}}
				for _, q := range parkedQueries {
					r.hullRace = true
					r.doQuery(q, false)
				}
			}
		} else {
			res.Note("hullrace: batch B did not become readable while its writer was parked")
		}
	}
	if !released {
		close(gate)
		<-doneW
	}
	ans, err := vh.Batch(args.Driver, r.lines)
	if err != nil {
		res.Note("hullrace: driver: %v", err)
	}
	for i := range ans {
		r.checks[i](ans[i])
	}
}

func sectionJIter(rng *vh.Rng) {}
