package main

import "verifharness/internal/vh"

func sectionJIter(rng *vh.Rng) {}
