// C02 harness — time-range queries return exactly the events whose timestamp is in range.
//
// Sections
//
//	corpus    witnesses of the fixed / open findings and minimised past failures, replayed first
//	tree      unit: real ckindex block tree (export) vs the Lean IdxTree model vs the abstract Points model after every
//	          addInterval; grEq/less for probe timestamps {each point's ts, ±1}; SPEC = soundness of the two answers
//	          against concrete record timestamps (the index may only skip positions outside the range)
//	selector  unit: checkPosOrAdvance / checkPosOrReduce exhaustive over small statuses; updatePoss exhaustive over
//	          small hull / range / index-answer sets through a scripted TsIndexer
//	cindex    unit: real TsIndexer (OnWrite, look-ups, hull) + updatePoss window vs the Lean CIndex/Selector models
//	system    in-process server, tiny chunks, generated histories (timestamp regimes × batch sizes × chunk sizes),
//	          every interesting RANGE queried through backend.Querier / RPC with paging (= cursor re-creation),
//	          interleaved with writes and index rebuilds; IMPL vs SPEC (filter of the unbounded read) vs MODEL
//	          (write loop → cindex on the block tree → chkSelector → JIterator → fiterator)
//	jiter     partition.JIterator step by step (get/next/setpos/backward) next to further writes vs the model
//	race      (thorough) ranged readers while a writer appends and indexes are force-rebuilt: SPEC only
package main

import (
	"context"
	"encoding/json"
	"fmt"
	"io"
	"math"
	"os"
	"os/exec"
	"sort"
	"strconv"
	"strings"
	"sync"
	"time"

	"github.com/logrange/logrange/api"
	"github.com/logrange/logrange/pkg/lql"
	"github.com/logrange/logrange/pkg/model"
	"github.com/logrange/logrange/pkg/model/tag"
	"github.com/logrange/logrange/pkg/tmindex"
	"github.com/logrange/range/pkg/records"
	"github.com/logrange/range/pkg/records/chunk"
	"github.com/logrange/range/pkg/records/journal"
	"verifharness/internal/lrsrv"
	"verifharness/internal/vh"
)

var (
	args vh.Args
	res  *vh.Result
)

const tags = "p=1"

// ---------------------------------------------------------------------------------------------
// write iterator

type wit struct {
	evs []model.LogEvent
	i   int
}

func (m *wit) Next(ctx context.Context) { m.i++ }
func (m *wit) Get(ctx context.Context) (model.LogEvent, tag.Line, error) {
	if m.i >= len(m.evs) {
		return model.LogEvent{}, "", io.EOF
	}
	return m.evs[m.i], "", nil
}
func (m *wit) Release()                        {}
func (m *wit) SetBackward(bool)                {}
func (m *wit) CurrentPos() records.IteratorPos { return m.i }

// ---------------------------------------------------------------------------------------------
// histories

// seg is N timestamps T, T+D, T+2D, ...
type seg struct {
	T int64 `json:"t"`
	N int   `json:"n"`
	D int64 `json:"d,omitempty"`
}

type op struct {
	Kind   string `json:"kind"` // write | rebuild | restart | query | sweep
	Segs   []seg  `json:"segs,omitempty"`
	Chunk  int    `json:"chunk,omitempty"`   // rebuild: 1-based chunk number forced through the asynchronous rebuilder (0 = every chunk, synchronously)
	Crash  bool   `json:"crash,omitempty"`   // restart: on an image of the directory taken while the server runs (cindex.dat of the last clean stop)
	NoHeal bool   `json:"no_heal,omitempty"` // restart: no SyncChunks + rebuild afterwards — the index is what the queries of the history make of it
	Dead   bool   `json:"dead,omitempty"`    // rebuild: query while the other chunks' indexes are missing (SPEC only), then heal
	Lo     *int64 `json:"lo,omitempty"`
	Hi     *int64 `json:"hi,omitempty"`
	Page   int    `json:"page,omitempty"`
	RPC    bool   `json:"rpc,omitempty"`
	N      int    `json:"n,omitempty"` // sweep: number of ranges
	Seed   int64  `json:"seed,omitempty"`
}

type history struct {
	ChunkSize int    `json:"chunk_size"`
	Regime    string `json:"regime,omitempty"`
	Ops       []op   `json:"ops"`
}

func expand(segs []seg) []int64 {
	var r []int64
	for _, s := range segs {
		for i := 0; i < s.N; i++ {
			r = append(r, s.T+int64(i)*s.D)
		}
	}
	return r
}

// compress turns a timestamp list into segments (equal runs and constant-step runs)
func compress(ts []int64) []seg {
	var r []seg
	i := 0
	for i < len(ts) {
		if i+1 == len(ts) {
			r = append(r, seg{T: ts[i], N: 1})
			break
		}
		d := ts[i+1] - ts[i]
		j := i + 1
		for j+1 < len(ts) && ts[j+1]-ts[j] == d {
			j++
		}
		if j-i+1 >= 3 || d == 0 {
			r = append(r, seg{T: ts[i], N: j - i + 1, D: d})
			i = j + 1
		} else {
			r = append(r, seg{T: ts[i], N: 1})
			i++
		}
	}
	return r
}

func runsOf(xs []int) string {
	if len(xs) == 0 {
		return "-"
	}
	var sb strings.Builder
	a, b := xs[0], xs[0]
	flush := func() {
		if sb.Len() > 0 {
			sb.WriteByte(',')
		}
		if a == b {
			sb.WriteString(strconv.Itoa(a))
		} else {
			sb.WriteString(strconv.Itoa(a) + "-" + strconv.Itoa(b))
		}
	}
	for _, x := range xs[1:] {
		if x == b+1 {
			b = x
			continue
		}
		flush()
		a, b = x, x
	}
	flush()
	return sb.String()
}

func optS(p *int64) string {
	if p == nil {
		return "none"
	}
	return strconv.FormatInt(*p, 10)
}

func i64p(v int64) *int64 { return &v }

func short(s string) string {
	if len(s) > 300 {
		return s[:140] + " … " + s[len(s)-140:]
	}
	return s
}

// ---------------------------------------------------------------------------------------------
// system run

type preResult struct {
	seqs []int
	tss  []int64
	err  string
}

type sysRun struct {
	h            history
	srv          *lrsrv.Srv
	dir          string   // the running server's directory
	dirs         []string // every directory of the run (crash images included), removed at the end
	ctx          context.Context
	src          string
	jrnl         journal.Journal
	allTs        []int64
	batches      [][]int64
	full         []int // cached unbounded read (sequence numbers), nil = stale
	fullErr      string
	lines        []string
	checks       []func(ans string)
	done         []op // writes / rebuilds executed so far (the prefix that reproduces the current state)
	asyncReb     bool // the model reported an index corrupted at write time: the rebuild raced with the flush, points are not compared any more
	sec          *vh.Section
	section      string
	verbose      bool
	nq           int
	lossSeen     map[string]bool
	flushIn      *flushCase // set in section flushrace: the reproduction of a failing query is the whole flush case
	pre          *preResult // result of a query the caller ran itself
	schedFinding string     // set by the parked-schedule replays: the finding a loss with IMPL = MODEL belongs to
	hullRace     bool       // the writer of the last batch is parked before onWriteCIndex (deterministic replay of F46)
}

// linkCheck flags the model-to-model links the driver evaluates on writes and rebuilds (PartHist / PipeHist / flat rebuild)
func (r *sysRun) linkCheck() func(string) {
	in := r.inputWith(nil)
	sec := r.section
	return func(ans string) {
		if strings.Contains(strings.ToLower(ans), "differs") {
			res.Mismatch(vh.Mismatch{Section: sec, Function: "model links (PartHist / PipeHist history models, flat rebuild) vs the pipeline model", Input: in, Impl: "pipeline model", Model: short(ans)})
		}
	}
}

func (r *sysRun) ask(line string, check func(ans string)) {
	r.lines = append(r.lines, line)
	r.checks = append(r.checks, check)
}

func (r *sysRun) chunks() chunk.Chunks {
	if r.jrnl == nil {
		return nil
	}
	cks, _ := r.jrnl.Chunks().Chunks(r.ctx)
	return cks
}

func (r *sysRun) waitFlushed() bool {
	for k := 0; k < 5000; k++ {
		n := 0
		for _, c := range r.chunks() {
			n += int(c.Count())
		}
		if n == len(r.allTs) {
			return true
		}
		time.Sleep(time.Millisecond)
	}
	return false
}

func (r *sysRun) waitIdle() bool {
	for k := 0; k < 20000; k++ {
		if r.srv.Parts.VerifRebuilderIdle() {
			return true
		}
		time.Sleep(time.Millisecond)
	}
	return false
}

func modelSpec(ts []int64) string {
	if len(ts) == 0 {
		return "-"
	}
	var sb strings.Builder
	i := 0
	for i < len(ts) {
		j := i
		for j+1 < len(ts) && ts[j+1] == ts[i] {
			j++
		}
		if sb.Len() > 0 {
			sb.WriteByte(',')
		}
		sb.WriteString(strconv.FormatInt(ts[i], 10))
		sb.WriteString(":6:0")
		if j > i {
			sb.WriteString("*" + strconv.Itoa(j-i+1))
		}
		i = j + 1
	}
	return sb.String()
}

func errName(err error) string {
	switch {
	case err == nil:
		return ""
	case err == tmindex.ErrTmIndexCorrupted:
		return "corrupted"
	case err == tmindex.ErrOutOfRange:
		return "outofrange"
	case strings.Contains(strings.ToLower(err.Error()), "not found"):
		return "notfound"
	}
	return "other:" + err.Error()
}

func (r *sysRun) implHull() string {
	var parts []string
	for i, c := range r.chunks() {
		ri, err := r.srv.TsIdx.GetRecordsInfo(r.src, c.Id())
		if err != nil {
			parts = append(parts, fmt.Sprintf("%d:%d:?:?", i+1, c.Count()))
			continue
		}
		parts = append(parts, fmt.Sprintf("%d:%d:%d:%d", i+1, c.Count(), ri.MinTs, ri.MaxTs))
	}
	return strings.Join(parts, " ")
}

func (r *sysRun) implPoints(c chunk.Chunk) string {
	recs, err := r.srv.TsIdx.ReadData(r.src, c.Id())
	if err != nil {
		if e := errName(err); e == "notfound" {
			return "noindex"
		} else {
			return e
		}
	}
	parts := make([]string, len(recs))
	for i, x := range recs {
		parts[i] = fmt.Sprintf("%d:%d", x.Ts, x.Val)
	}
	return strings.Join(parts, ",")
}

func (r *sysRun) compareIndexState(what string, rng *vh.Rng) {
	in := r.inputWith(nil)
	hull := r.implHull()
	r.ask("rw.hull", func(ans string) {
		if r.asyncReb {
			// a rebuild that ran before the records were confirmed saw an empty (or shorter) chunk: update() then widens the hull with 0
			res.Dist(r.sec, "hull-not-compared(async rebuild raced with flush)")
			return
		}
		if ans != hull {
			res.Mismatch(vh.Mismatch{Section: r.section, Function: "chunk hulls (GetRecordsInfo) after " + what, Input: in, Impl: short(hull), Model: short(ans)})
		}
	})
	cks := r.chunks()
	pick := map[int]bool{}
	for i := len(cks) - 3; i < len(cks); i++ {
		if i >= 0 {
			pick[i] = true
		}
	}
	for k := 0; k < 2 && len(cks) > 3; k++ {
		pick[rng.Intn(len(cks))] = true
	}
	for i := range cks {
		if !pick[i] {
			continue
		}
		pts := r.implPoints(cks[i])
		i := i
		r.ask(fmt.Sprintf("rw.points %d", i+1), func(ans string) {
			if r.asyncReb {
				res.Dist(r.sec, "points-not-compared(async rebuild raced with flush)")
				return
			}
			if ans != pts {
				res.Mismatch(vh.Mismatch{Section: r.section, Function: fmt.Sprintf("index points (ReadData) of chunk %d after %s", i+1, what), Input: in, Impl: short(pts), Model: short(ans)})
			}
		})
	}
}

// inputWith is the self-contained reproduction of the current state plus one more operation
func (r *sysRun) inputWith(extra *op) history {
	h := history{ChunkSize: r.h.ChunkSize, Regime: r.h.Regime, Ops: append([]op{}, r.done...)}
	if extra != nil {
		h.Ops = append(h.Ops, *extra)
	}
	return h
}

func (r *sysRun) doWrite(o op, rng *vh.Rng) bool {
	if r.jrnl != nil && !r.waitIdle() {
		return false
	}
	ts := expand(o.Segs)
	evs := make([]model.LogEvent, len(ts))
	for i, t := range ts {
		evs[i] = model.LogEvent{Timestamp: t, Msg: []byte(fmt.Sprintf("%06d", len(r.allTs)+i))}
	}
	if err := r.srv.Parts.Write(r.ctx, tags, &wit{evs: evs}, true); err != nil {
		res.Note("system: write failed: %v", err)
		return false
	}
	r.allTs = append(r.allTs, ts...)
	r.batches = append(r.batches, ts)
	r.full = nil
	if r.jrnl == nil {
		src, _, err := r.srv.TIndex.GetOrCreateJournal(tags)
		if err != nil {
			res.Note("system: %v", err)
			return false
		}
		r.srv.TIndex.Release(src)
		r.src = src
		r.jrnl, err = r.srv.Journals.GetOrCreate(r.ctx, src)
		if err != nil || r.jrnl == nil {
			res.Note("system: no journal: %v", err)
			return false
		}
	}
	if !r.waitFlushed() {
		res.Note("system: written records did not become readable within 5 s")
		return false
	}
	if !r.waitIdle() {
		res.Note("system: index rebuilder did not become idle within 20 s")
		return false
	}
	r.done = append(r.done, o)
	inPH := r.inputWith(nil)
	r.ask("rw.write "+modelSpec(ts), func(ans string) {
		if i := strings.Index(ans, " CORRUPTED "); i >= 0 {
			r.asyncReb = true
		}
		if strings.Contains(ans, "PARTHIST-DIFFERS") {
			res.Mismatch(vh.Mismatch{Section: r.section, Function: "Points-level partition model of the history theorem (PartHist: pieces → ChunkHist.onWrite) vs the pipeline model (write loop → cindex on the tree)", Input: inPH, Impl: "pipeline model", Model: short(ans)})
		}
		if strings.Contains(ans, "PIPEHIST-DIFFERS") {
			res.Mismatch(vh.Mismatch{Section: r.section, Function: "history model of the end-to-end theorem (PipeHist: one CIndex.onWrite per piece with the call's iwrapper hull) vs the pipeline ops (WriteLoop.serviceWrite → OnWrite calls)", Input: inPH, Impl: "pipeline model", Model: short(ans)})
		}
	})
	// a chunk answered ErrTmIndexCorrupted is rebuilt by the asynchronous rebuilder (awaited above); the driver does the same
	inW := r.inputWith(nil)
	r.ask("rw.autorebuild", func(ans string) {
		if ans != "ok" {
			res.Mismatch(vh.Mismatch{Section: r.section, Function: "model links at a rebuild: Points-level rebuild (RebuildHist.rebuildPts) = rebuilt tree; history model PipeHist = pipeline state", Input: inW, Impl: "tree", Model: ans})
		}
	})
	r.compareIndexState("write", rng)
	return true
}

func (r *sysRun) doRebuild(o op, rng *vh.Rng) bool {
	// queries may have left (no-op) rebuild requests with the asynchronous rebuilder: let them finish, a request that
	// runs in the middle of the forced loop below would rebuild a chunk early and the loop would then drop the new index file
	if r.jrnl != nil && !r.waitIdle() {
		return false
	}
	cks := r.chunks()
	if len(cks) == 0 {
		return true
	}
	if o.Chunk <= 0 || o.Chunk > len(cks) {
		for _, c := range cks {
			r.srv.TsIdx.RebuildIndex(r.ctx, r.src, c, true)
		}
	} else {
		r.srv.Parts.GetTmIndexRebuilder().RebuildIndex(r.src, cks[o.Chunk-1].Id(), true)
		time.Sleep(time.Millisecond)
		if !r.waitIdle() {
			res.Note("system: forced rebuild did not finish within 20 s")
			return false
		}
		if o.Dead {
			// the index file shared by the other chunks is gone: their look-ups fail until they are rebuilt. SPEC only.
			sw := op{Kind: "sweep", N: 6, Seed: o.Seed}
			r.doSweep(sw, true)
			if !r.waitIdle() {
				return false
			}
		}
		for _, c := range cks {
			r.srv.TsIdx.RebuildIndex(r.ctx, r.src, c, false)
		}
	}
	r.done = append(r.done, op{Kind: "rebuild"}) // for reproduction a synchronous rebuild of every chunk gives the same state
	inR := r.inputWith(nil)
	r.ask("rw.rebuild all", func(ans string) {
		if ans != "ok" {
			res.Mismatch(vh.Mismatch{Section: r.section, Function: "model links at a rebuild: Points-level rebuild (RebuildHist.rebuildPts) = rebuilt tree; history model PipeHist = pipeline state", Input: inR, Impl: "tree", Model: ans})
		}
	})
	r.compareIndexState("rebuild", rng)
	return true
}

// acquireJournal finds the partition's journal on the running server
func (r *sysRun) acquireJournal() bool {
	src, _, err := r.srv.TIndex.GetOrCreateJournal(tags)
	if err != nil {
		res.Note("system: %v", err)
		return false
	}
	r.srv.TIndex.Release(src)
	r.src = src
	r.jrnl, err = r.srv.Journals.GetOrCreate(r.ctx, src)
	if err != nil || r.jrnl == nil {
		res.Note("system: no journal: %v", err)
		return false
	}
	return true
}

// doRestart: a clean stop and start on the same directory, or a start on an image of the directory copied while the server
// runs (what a crash leaves: current journal files, the time-index snapshot of the last clean stop). Afterwards one
// SyncChunks and a non-forced rebuild of every chunk bring the index into a state that does not depend on which queries ran
func (r *sysRun) doRestart(o op, rng *vh.Rng) bool {
	if r.jrnl == nil {
		return true
	}
	if !r.waitIdle() {
		return false
	}
	if o.Crash {
		img := lrsrv.NewDir()
		os.RemoveAll(img)
		if out, err := exec.Command("cp", "-a", r.dir, img).CombinedOutput(); err != nil {
			res.Note("system: crash image: %v %s", err, out)
			return false
		}
		r.dirs = append(r.dirs, img)
		r.srv.Stop()
		r.dir = img
	} else {
		r.srv.Stop()
	}
	srv, err := lrsrv.Start(r.dir, lrsrv.Opts{MaxChunkSize: r.h.ChunkSize, NoRPC: true})
	if err != nil {
		res.SpecFail(vh.SpecFailure{Section: r.section, Kind: "restart-refused", Input: r.inputWith(&o), Impl: err.Error(), Spec: "starts", What: "the server does not start again"})
		// keep a stopped handle so that the deferred Stop is harmless
		return false
	}
	r.srv = srv
	r.jrnl = nil
	if !r.acquireJournal() {
		return false
	}
	n := 0
	for _, c := range r.chunks() {
		n += int(c.Count())
	}
	if n != len(r.allTs) {
		res.SpecFail(vh.SpecFailure{Section: r.section, Kind: "records-lost-on-restart", Input: r.inputWith(&o), Impl: fmt.Sprint(n), Spec: fmt.Sprint(len(r.allTs)), What: "the journal does not hold every flushed record after the restart (C07's matter; the history is abandoned)"})
		return false
	}
	cks := r.chunks()
	srv.TsIdx.SyncChunks(r.ctx, r.src, cks)
	if !o.NoHeal {
		for _, c := range cks {
			srv.TsIdx.RebuildIndex(r.ctx, r.src, c, false)
		}
	}
	if !r.waitIdle() {
		return false
	}
	r.full = nil
	r.done = append(r.done, o)
	how := "clean"
	if o.Crash {
		how = "crash"
	}
	r.ask("rw.restart "+how, func(string) {})
	r.ask("rw.sync", func(string) {})
	if o.NoHeal {
		// only hulls are compared: which chunks get a tree depends on the look-ups that follow
		hull := r.implHull()
		in := r.inputWith(nil)
		r.ask("rw.hull", func(ans string) {
			if ans != hull {
				res.Mismatch(vh.Mismatch{Section: r.section, Function: "chunk hulls (GetRecordsInfo) after restart without rebuilds", Input: in, Impl: short(hull), Model: short(ans)})
			}
		})
		return true
	}
	r.ask("rw.heal", func(string) {})
	r.compareIndexState("restart ("+how+")", rng)
	return true
}

func boundStr(v int64) string { return "\"" + strconv.FormatInt(v, 10) + "\"" }

func rangeQuery(lo, hi *int64) string {
	q := "select from " + tags
	switch {
	case lo != nil && hi != nil:
		q += " range [" + boundStr(*lo) + ":" + boundStr(*hi) + "]"
	case lo != nil:
		q += " range " + boundStr(*lo)
	case hi != nil:
		q += " range [:" + boundStr(*hi) + "]"
	}
	return q
}

// effective bounds: what the LQL parser makes of the bound strings (their meaning is C20/C12, not C02)
func effectiveBounds(q string, lo, hi *int64) (*int64, *int64, bool, error) {
	l, err := lql.ParseLql(q)
	if err != nil || l.Select == nil {
		return nil, nil, false, fmt.Errorf("query %q does not parse: %v", q, err)
	}
	if l.Select.Range == nil {
		if lo != nil || hi != nil {
			return nil, nil, false, fmt.Errorf("query %q lost its RANGE", q)
		}
		return nil, nil, false, nil
	}
	elo, ehi := (*int64)(l.Select.Range.TmPoint1), (*int64)(l.Select.Range.TmPoint2)
	changed := (elo == nil) != (lo == nil) || (ehi == nil) != (hi == nil) || (elo != nil && *elo != *lo) || (ehi != nil && *ehi != *hi)
	return elo, ehi, changed, nil
}

func seqOfMsg(m string) int {
	n, err := strconv.Atoi(m)
	if err != nil {
		return -1
	}
	return n
}

// runQuery reads a whole query result page by page (every page re-creates the cursor from the returned position)
func (r *sysRun) runQuery(q string, page int, rpc bool) ([]int, []int64, string) {
	var seqs []int
	var tss []int64
	req := &api.QueryRequest{Query: q, Limit: page}
	for pages := 0; pages < 1000000; pages++ {
		var qr *api.QueryResult
		var err error
		if rpc && r.srv.Client != nil {
			qr = &api.QueryResult{}
			err = r.srv.Client.Query(r.ctx, req, qr)
			if err == nil && qr.Err != nil {
				err = qr.Err
			}
		} else {
			qr, err = r.srv.Querier.Query(r.ctx, req)
		}
		if err == io.EOF && qr != nil {
			err = nil // end of data reached while filling the page
		}
		if err != nil {
			return seqs, tss, "error: " + err.Error()
		}
		for _, e := range qr.Events {
			seqs = append(seqs, seqOfMsg(e.Message))
			tss = append(tss, e.Timestamp)
		}
		if len(qr.Events) < page {
			return seqs, tss, ""
		}
		nr := qr.NextQueryRequest
		req = &nr
		req.Limit = page
	}
	return seqs, tss, "error: too many pages"
}

func (r *sysRun) fullRead() ([]int, string) {
	if r.full == nil && r.fullErr == "" {
		seqs, _, e := r.runQuery("select from "+tags, 10000, false)
		r.full, r.fullErr = seqs, e
		if r.full == nil {
			r.full = []int{}
		}
	}
	return r.full, r.fullErr
}

func inB(t int64, lo, hi *int64) bool { return (lo == nil || *lo <= t) && (hi == nil || t <= *hi) }

func (r *sysRun) doQuery(o op, specOnly bool) {
	page := o.Page
	if page <= 0 || page > 10000 {
		page = 10000
	}
	q := rangeQuery(o.Lo, o.Hi)
	elo, ehi, changed, err := effectiveBounds(q, o.Lo, o.Hi)
	if err != nil {
		res.Note("system: %v", err)
		return
	}
	if changed {
		res.Dist(r.sec, "bound-text-reinterpreted-by-lql")
	}
	if o.Lo == nil && o.Hi == nil {
		return
	}
	full, ferr := r.fullRead()
	if ferr != "" {
		res.Note("system: unbounded read failed: %s", ferr)
		return
	}
	var got []int
	var gts []int64
	var qerr string
	if r.pre != nil {
		// the query was executed by the caller (it had to run in its own goroutine inside a parked schedule)
		got, gts, qerr = r.pre.seqs, r.pre.tss, r.pre.err
		r.pre = nil
	} else {
		got, gts, qerr = r.runQuery(q, page, o.RPC)
	}
	r.nq++
	// SPEC: the unbounded read filtered to the range
	var spec []int
	for _, s := range full {
		if s >= 0 && s < len(r.allTs) && inB(r.allTs[s], elo, ehi) {
			spec = append(spec, s)
		}
	}
	gotS, specS := runsOf(got), runsOf(spec)
	var in interface{} = r.inputWith(&op{Kind: "query", Lo: o.Lo, Hi: o.Hi, Page: o.Page, RPC: o.RPC})
	if r.flushIn != nil {
		in = *r.flushIn
	}
	nontrivial := ""
	if len(spec) > 0 && len(spec) < len(full) {
		nontrivial = fmt.Sprintf("%p %s %s %d", r, optS(elo), optS(ehi), page)
	}
	res.Eval(r.sec, nontrivial)
	switch {
	case elo == nil:
		res.Dist(r.sec, "range=[:hi]")
	case ehi == nil:
		res.Dist(r.sec, "range=[lo:]")
	case *elo == *ehi:
		res.Dist(r.sec, "range=[t:t]")
	default:
		res.Dist(r.sec, "range=[lo:hi]")
	}
	kind, what := "", ""
	if qerr != "" {
		kind, what = "query-error", "the ranged query failed: "+qerr
	} else if gotS != specS {
		inGot := map[int]bool{}
		for _, s := range got {
			inGot[s] = true
		}
		inSpec := map[int]bool{}
		for _, s := range spec {
			inSpec[s] = true
		}
		missing, extra := 0, 0
		firstMissing := -1
		for _, s := range spec {
			if !inGot[s] {
				missing++
				if firstMissing < 0 {
					firstMissing = s
				}
			}
		}
		for i, s := range got {
			if !inSpec[s] {
				extra++
			}
			if s >= 0 && s < len(r.allTs) && gts[i] != r.allTs[s] {
				extra++
			}
		}
		switch {
		case extra > 0:
			kind, what = "extra-event", fmt.Sprintf("RANGE [%s:%s] returned %d events that are outside the range or not in the unbounded read", optS(elo), optS(ehi), extra)
		case missing > 0:
			kind, what = "hidden-event", fmt.Sprintf("RANGE [%s:%s] (page %d) hides %d of %d events that are in range (first: #%d ts=%d)", optS(elo), optS(ehi), page, missing, len(spec), firstMissing, r.allTs[firstMissing])
		default:
			kind, what = "order-or-duplicate", fmt.Sprintf("RANGE [%s:%s] returned the right set in another order or with duplicates", optS(elo), optS(ehi))
		}
	}
	if specOnly {
		if kind != "" {
			res.SpecFail(vh.SpecFailure{Section: r.section, Kind: kind, Input: in, Impl: short(gotS), Spec: short(specS), What: what + " (queried while indexes were missing)"})
		}
		return
	}
	verbose := r.verbose
	sched := r.schedFinding
	r.ask(fmt.Sprintf("r.scan %s %s %d", optS(elo), optS(ehi), page), func(ans string) {
		f := map[string]string{}
		for _, kv := range strings.Fields(ans) {
			if i := strings.Index(kv, "="); i > 0 {
				f[kv[:i]] = kv[i+1:]
			}
		}
		if verbose {
			fmt.Printf("query %s page=%d\n  impl : %s\n  model: %s\n  spec : %s\n  %s\n", q, page, short(gotS), short(f["got"]), short(specS), ans[strings.Index(ans, "cls="):])
		}
		eq := f["got"] == gotS
		if !eq && qerr == "" {
			res.Mismatch(vh.Mismatch{Section: r.section, Function: "ranged read (write loop → cindex → chkSelector → JIterator → fiterator)", Input: in, Impl: short(gotS), Model: short(f["got"])})
		}
		if ag, ok := f["absgot"]; ok && ag != gotS && qerr == "" {
			// the model the end-to-end theorem is about, compared with the real code directly (not only through RangedIter.scan)
			res.Mismatch(vh.Mismatch{Section: r.section, Function: "ranged read of the real code vs PipeRead.absScan (statuses of the pipeline model folded over the chunks + range re-check: the model of range_eq_filter_pipeline)", Input: in, Impl: short(gotS), Model: short(ag)})
		}
		if f["abs"] == "0" {
			res.Mismatch(vh.Mismatch{Section: r.section, Function: "abstract scan of the partition theorem (PartScan: windows folded over chunks + range re-check) vs the executable pipeline model", Input: in, Impl: short(gotS), Model: "PartScan.scanAll differs from RangedIter.scan: " + short(f["got"])})
		}
		if f["spec"] != specS {
			res.Mismatch(vh.Mismatch{Section: r.section, Function: "SPEC oracle: filter of the unbounded read vs filter of what was written", Input: in, Impl: short(specS), Model: short(f["spec"])})
		}
		if kind == "" {
			return
		}
		finding := ""
		if kind == "hidden-event" && eq && sched != "" {
			finding = sched
		} else if kind == "hidden-event" && eq && r.hullRace {
			// deterministic schedule; the model (journal updated, chunk index not) shows the same loss
			finding = "F46"
		} else if kind == "hidden-event" && eq {
			cls := map[string]bool{}
			for _, c := range strings.Split(f["cls"], ",") {
				cls[c] = true
			}
			// a repair set found by the model (only classes whose predicate holds are tried): the loss belongs to its first member
			switch first := strings.Split(f["fixset"], ",")[0]; {
			case first == "3" && cls["3"]:
				finding = "F03"
			case first == "2" && cls["2"]:
				finding = "F02"
			case first == "41" && cls["41"]:
				finding = "F45"
			case f["hullbad"] == "1":
				// a hidden event outside the hull the index holds for its chunk: every hull is exact or over-wide on any data since
				// lightFill scans all records (3cb83a3, was the second half of F04) — never the open finding F04: stays unattributed
			case cls["24"]:
				finding = "F24"
			case cls["4"]:
				finding = "F04"
			}
		}
		res.Dist(r.sec, "loss:"+kind+":"+finding)
		res.SpecFail(vh.SpecFailure{Section: r.section, Kind: kind, Input: in, Impl: short(gotS), Spec: short(specS), Model: short(f["got"]), ImplEqModel: eq, Finding: finding, What: what})
	})
}

// interesting timestamps of the current state: index points, chunk edges, batch edges, hull values, extremes
func (r *sysRun) interesting(rng *vh.Rng) []int64 {
	set := map[int64]bool{}
	add := func(t int64) {
		set[t] = true
		if t > math.MinInt64 {
			set[t-1] = true
		}
		if t < math.MaxInt64 {
			set[t+1] = true
		}
	}
	pos := 0
	for _, c := range r.chunks() {
		if recs, err := r.srv.TsIdx.ReadData(r.src, c.Id()); err == nil {
			for _, x := range recs {
				add(x.Ts)
				if p := pos + int(x.Val); p < len(r.allTs) {
					add(r.allTs[p])
				}
			}
		}
		if ri, err := r.srv.TsIdx.GetRecordsInfo(r.src, c.Id()); err == nil {
			add(ri.MinTs)
			add(ri.MaxTs)
		}
		n := int(c.Count())
		if n > 0 && pos+n <= len(r.allTs) {
			add(r.allTs[pos])
			add(r.allTs[pos+n-1])
		}
		pos += n
	}
	p := 0
	for _, b := range r.batches {
		if len(b) > 0 {
			add(b[0])
			add(b[len(b)-1])
		}
		p += len(b)
	}
	for k := 0; k < 6 && len(r.allTs) > 0; k++ {
		add(r.allTs[rng.Intn(len(r.allTs))])
	}
	add(0)
	mn, mx := int64(math.MaxInt64), int64(math.MinInt64)
	for _, t := range r.allTs {
		if t < mn {
			mn = t
		}
		if t > mx {
			mx = t
		}
	}
	if len(r.allTs) > 0 {
		add(mn)
		add(mx)
		if mn > math.MinInt64+10 {
			set[mn-10] = true
		}
		if mx < math.MaxInt64-10 {
			set[mx+10] = true
		}
	}
	out := make([]int64, 0, len(set))
	for t := range set {
		out = append(out, t)
	}
	sort.Slice(out, func(i, j int) bool { return out[i] < out[j] })
	return out
}

func (r *sysRun) doSweep(o op, specOnly bool) {
	rng := vh.NewRng(o.Seed).Fork("sweep")
	ts := r.interesting(rng)
	if len(ts) == 0 {
		return
	}
	pages := []int{0, 0, 0, 1000, 97, 251}
	for k := 0; k < o.N; k++ {
		var lo, hi *int64
		a := ts[rng.Intn(len(ts))]
		switch rng.Intn(10) {
		case 0, 1, 2:
			lo = i64p(a) // [a:]
		case 3, 4:
			hi = i64p(a) // [:a]
		case 5:
			lo, hi = i64p(a), i64p(a)
		default:
			b := ts[rng.Intn(len(ts))]
			if b < a {
				a, b = b, a
			}
			lo, hi = i64p(a), i64p(b)
		}
		q := op{Kind: "query", Lo: lo, Hi: hi, Page: rng.PickI(pages), RPC: rng.Chance(1, 8)}
		if len(r.allTs) > 20000 && q.Page != 0 && q.Page < 1000 {
			q.Page = 1000
		}
		r.doQuery(q, specOnly)
	}
}

// runSystem executes one history on a fresh server and evaluates it against the model
func runSystem(h history, section string, sec *vh.Section, verbose bool) {
	dir := lrsrv.NewDir()
	srv, err := lrsrv.Start(dir, lrsrv.Opts{MaxChunkSize: h.ChunkSize, NoRPC: len(h.Ops)%4 != 0})
	if err != nil {
		res.Note("system: %v", err)
		os.RemoveAll(dir)
		return
	}
	r := &sysRun{h: h, srv: srv, dir: dir, dirs: []string{dir}, ctx: context.Background(), sec: sec, section: section, verbose: verbose}
	defer func() {
		r.srv.Stop()
		for _, d := range r.dirs {
			os.RemoveAll(d)
		}
	}()
	rng := vh.NewRng(int64(len(h.Ops))*7919 + int64(h.ChunkSize))
	r.ask(fmt.Sprintf("rw.reset %d", h.ChunkSize), func(string) {})
	for _, o := range h.Ops {
		ok := true
		switch o.Kind {
		case "write":
			ok = r.doWrite(o, rng)
		case "rebuild":
			ok = r.doRebuild(o, rng)
		case "restart":
			ok = r.doRestart(o, rng)
		case "query":
			r.doQuery(o, false)
		case "sweep":
			r.doSweep(o, false)
		}
		if !ok {
			break
		}
	}
	ans, err := vh.Batch(args.Driver, r.lines)
	if err != nil {
		res.Note("system: driver: %v", err)
	}
	for i := range ans {
		if ans[i] == "bad-op" {
			res.Note("system: driver rejected %q", short(r.lines[i]))
			continue
		}
		r.checks[i](ans[i])
	}
}

// ---------------------------------------------------------------------------------------------
// history generator

var chunkSizes = []int{600, 5000, 5020, 10000, 50000, 250000}
var batchSizes = []int{1, 249, 250, 251, 500, 5000}

// genTs produces n timestamps continuing a regime; cur is the running "clock"
type tsGen struct {
	regime string
	cur    int64
	runLen int // remaining records of the current equal run
	rng    *vh.Rng
}

func (g *tsGen) next() int64 {
	r := g.rng
	switch g.regime {
	case "strict":
		g.cur += int64(1 + r.Intn(3))
		return g.cur
	case "ties":
		if g.runLen <= 0 {
			g.runLen = r.PickI([]int{1, 2, 3, 100, 249, 250, 251, 300, 600, 1000})
			g.cur += int64(r.Intn(3)) // sometimes the next run has the same timestamp again
		}
		g.runLen--
		return g.cur
	case "jitter":
		if r.Chance(1, 4) {
			g.cur += int64(r.Intn(4))
		}
		if r.Chance(1, 10) {
			return g.cur + int64(r.Intn(5)) - 2
		}
		return g.cur
	case "stepback":
		// monotone runs with an occasional small step back in time (a late batch)
		if r.Chance(1, 400) {
			g.cur -= int64(r.Intn(600))
		}
		g.cur++
		return g.cur
	default: // arbitrary
		return g.cur + int64(r.Intn(2000)) - 1000
	}
}

func genHistory(rng *vh.Rng, thorough bool, big bool) history {
	h := history{ChunkSize: rng.PickI(chunkSizes)}
	h.Regime = rng.PickS([]string{"strict", "ties", "ties", "strict", "jitter", "stepback", "arbitrary"})
	base := rng.PickI64([]int64{1000, 1000, 1000, 1, -700, -1000000, math.MaxInt64 - 200000, math.MinInt64 + 5, 1 << 40})
	if h.Regime == "arbitrary" && base < math.MinInt64+2000 {
		base = -5000
	}
	g := &tsGen{regime: h.Regime, cur: base, rng: rng.Fork("ts")}
	budget := rng.PickI([]int{300, 800, 1500, 3000})
	if thorough {
		budget = rng.PickI([]int{300, 1500, 3000, 6000, 12000})
	}
	if big {
		budget = 80000
		h.ChunkSize = rng.PickI([]int{50000, 250000, 1000000})
	}
	if h.ChunkSize <= 600 && budget > 800 {
		budget = 800 // 30 records per chunk: keep the number of chunk files per server small
	}
	monotone := h.Regime == "strict" || h.Regime == "ties"
	total := 0
	sweepN := 10
	if big {
		sweepN = 5
	}
	for total < budget {
		n := rng.PickI(batchSizes)
		if rng.Chance(1, 3) {
			n = 1 + rng.Intn(40)
		}
		if n == 5000 && budget < 3000 && !rng.Chance(1, 4) {
			n = 500
		}
		if monotone && base > 0 && rng.Chance(1, 40) {
			n = 5002 + rng.Intn(300) // first interval of a chunk spanning more than 20 x sparseSpace: index declared corrupted, rebuilt asynchronously
		}
		if big && rng.Chance(1, 2) {
			n = 5000
		}
		ts := make([]int64, n)
		for i := range ts {
			ts[i] = g.next()
		}
		h.Ops = append(h.Ops, op{Kind: "write", Segs: compress(ts)})
		total += n
		if rng.Chance(1, 3) || total >= budget {
			h.Ops = append(h.Ops, op{Kind: "sweep", N: sweepN, Seed: int64(rng.Intn(1 << 30))})
		}
		if rng.Chance(1, 12) {
			o := op{Kind: "rebuild", Seed: int64(rng.Intn(1 << 30))}
			if rng.Bool() {
				o.Chunk = 1 + rng.Intn(4)
				o.Dead = monotone && base > 0 && rng.Bool() // SPEC-only queries: keep them outside the F02/F03 classes
			}
			h.Ops = append(h.Ops, o)
			h.Ops = append(h.Ops, op{Kind: "sweep", N: sweepN, Seed: int64(rng.Intn(1 << 30))})
		}
	}
	return h
}

// equalBoundHistory aims at the fixed finding #1: equal runs across index points, bound = an index point's timestamp
func equalBoundHistory(rng *vh.Rng) history {
	h := history{ChunkSize: rng.PickI([]int{50000, 250000, 10000}), Regime: "ties"}
	t := int64(100 * (1 + rng.Intn(5)))
	for b := 0; b < 3+rng.Intn(3); b++ {
		n := rng.PickI([]int{250, 251, 300, 500})
		k := rng.Intn(n)
		segs := []seg{}
		if k > 0 {
			segs = append(segs, seg{T: t, N: k})
		}
		if rng.Chance(2, 3) {
			t += int64(1 + rng.Intn(100))
		}
		segs = append(segs, seg{T: t, N: n - k})
		h.Ops = append(h.Ops, op{Kind: "write", Segs: segs})
	}
	h.Ops = append(h.Ops, op{Kind: "sweep", N: 30, Seed: int64(rng.Intn(1 << 30))})
	return h
}

// restartHistory: clean stops (time-index snapshot written), growth and roll-over of the known chunks, a crash image (the
// snapshot is older than the chunks), ranges above the snapshot's hulls. No rebuild ops: a forced rebuild between the
// snapshot and the crash would leave roots the model does not track.
func restartHistory(rng *vh.Rng, thorough bool) history {
	h := history{ChunkSize: rng.PickI([]int{5020, 5020, 10000, 50000}), Regime: rng.PickS([]string{"strict", "ties", "ties", "strict", "jitter"})}
	g := &tsGen{regime: h.Regime, cur: rng.PickI64([]int64{1000, 1000, -3000, 1 << 40}), rng: rng.Fork("ts")}
	batch := func(n int) op {
		ts := make([]int64, n)
		for i := range ts {
			ts[i] = g.next()
		}
		return op{Kind: "write", Segs: compress(ts)}
	}
	sweep := func(n int) op { return op{Kind: "sweep", N: n, Seed: int64(rng.Intn(1 << 30))} }
	h.Ops = append(h.Ops, batch(rng.PickI([]int{1, 10, 100, 260})))
	if rng.Bool() {
		h.Ops = append(h.Ops, sweep(4))
	}
	h.Ops = append(h.Ops, op{Kind: "restart"})
	rounds := 1 + rng.Intn(3)
	for k := 0; k < rounds; k++ {
		for b := 0; b < 1+rng.Intn(4); b++ {
			h.Ops = append(h.Ops, batch(rng.PickI([]int{1, 20, 249, 250, 251, 300, 500})))
		}
		switch rng.Intn(4) {
		case 0:
			h.Ops = append(h.Ops, op{Kind: "restart"}, sweep(8))
		default:
			h.Ops = append(h.Ops, op{Kind: "restart", Crash: true}, sweep(14))
		}
	}
	if rng.Bool() {
		h.Ops = append(h.Ops, batch(rng.PickI([]int{10, 250, 300})), sweep(8))
	}
	return h
}

func sectionSystem(rng *vh.Rng) {
	sec := res.Section("system", "system-correspondence",
		"in-process server with MaxChunkSize from {600 … 250000} (20-byte records), histories of writes (batch sizes {1,249,250,251,500,5000}, small random, occasionally > 5001) in timestamp regimes strict / ties (equal runs of 1…1000 across index points and chunk edges) / jitter / stepback / arbitrary, bases near 0, negative, near both int64 extremes; interleaved with clean restarts and restarts on crash images (directory copied while the server runs: current journal, time-index snapshot of the last clean stop; every eighth history), with forced index rebuilds (synchronous, or one chunk through the asynchronous rebuilder with queries while the other chunks' indexes are missing) and sweeps of RANGE queries whose bounds are drawn from {index points, chunk edges, batch edges, hull values, min, max, 0} ±1, ±10 beyond, absent; every query is read page by page (page sizes 10000/1000/251/97: each page re-creates the cursor from the returned position) through backend.Querier or the RPC client; compared with the filtered unbounded read (SPEC) and with the Lean pipeline model (MODEL), plus chunk hulls and index points after every write/rebuild; non-trivial = the range keeps some but not all events, distinct by (history, bounds, page)")
	n := 120
	if args.Thorough {
		n = 240
	}
	var hs []history
	for i := 0; i < n; i++ {
		if i%8 == 7 {
			hs = append(hs, equalBoundHistory(rng))
		} else if i%8 == 3 {
			hs = append(hs, restartHistory(rng, args.Thorough))
		} else {
			hs = append(hs, genHistory(rng, args.Thorough, false))
		}
	}
	if args.Thorough {
		for i := 0; i < 4; i++ {
			hs = append(hs, genHistory(rng, true, true))
		}
	}
	for _, h := range hs {
		res.Dist(sec, "regime="+h.Regime)
		res.Dist(sec, fmt.Sprintf("chunk=%d", h.ChunkSize))
	}
	var wg sync.WaitGroup
	sem := make(chan struct{}, 8)
	for i := range hs {
		wg.Add(1)
		sem <- struct{}{}
		go func(i int) {
			defer wg.Done()
			defer func() { <-sem }()
			runSystem(hs[i], "system", sec, false)
			if os.Getenv("C02_FDS") != "" {
				fds, _ := os.ReadDir("/proc/self/fd")
				nrec := 0
				for _, o := range hs[i].Ops {
					nrec += len(expand(o.Segs))
				}
				fmt.Printf("history %d chunk=%d records=%d ops=%d -> open fds %d\n", i, hs[i].ChunkSize, nrec, len(hs[i].Ops), len(fds))
			}
		}(i)
	}
	wg.Wait()
	if len(hs) > 0 {
		b, _ := json.Marshal(hs[0])
		if len(b) < 3000 {
			res.Sample(map[string]interface{}{"section": "system", "history": hs[0]})
		}
	}
	res.Done(sec)
}

// ---------------------------------------------------------------------------------------------

type replayDoc struct {
	Section string          `json:"section"`
	Input   json.RawMessage `json:"input"`
}

func runDoc(d replayDoc, section string, sec *vh.Section, verbose bool) {
	switch d.Section {
	case "system", "corpus":
		var h history
		if err := json.Unmarshal(d.Input, &h); err != nil || len(h.Ops) == 0 {
			res.Note("replay: bad system input: %v", err)
			return
		}
		runSystem(h, section, sec, verbose)
	case "cached":
		var probe struct {
			Limit int `json:"limit"`
		}
		if json.Unmarshal(d.Input, &probe) == nil && probe.Limit > 0 {
			var rc repositionCase
			if err := json.Unmarshal(d.Input, &rc); err != nil {
				res.Note("replay: bad reposition input: %v", err)
				return
			}
			runRepositionCase(rc, section, sec, verbose)
			return
		}
		var c cachedCase
		if err := json.Unmarshal(d.Input, &c); err != nil {
			res.Note("replay: bad cached input: %v", err)
			return
		}
		runCachedCase(c, section, sec, verbose)
	case "flushrace":
		var c flushCase
		if err := json.Unmarshal(d.Input, &c); err != nil {
			res.Note("replay: bad flushrace input: %v", err)
			return
		}
		runFlushCase(c, section, sec, verbose)
	case "tree":
		var c treeCase
		if err := json.Unmarshal(d.Input, &c); err != nil {
			res.Note("replay: bad tree input: %v", err)
			return
		}
		runTreeCase(c, section, sec, verbose)
	default:
		res.Note("replay: section %q has no single-input replay; re-run the check with the recorded seed", d.Section)
	}
}

func sectionCorpus() {
	sec := res.Section("corpus", "corpus", "witnesses of the fixed findings F01, F02, F03, F45 and of the repaired lightFill hull (f04-lightfill-crash: non-monotone chunk the index does not know, crash image — must pass since 3cb83a3) and of the open findings F04, F24 plus minimised past failures; each is one history (or one interval sequence) replayed against IMPL, MODEL and SPEC")
	for _, f := range vh.CorpusFiles(args.Corpus) {
		var d replayDoc
		if err := vh.ReadJSON(f, &d); err != nil {
			res.Note("corpus: %s: %v", f, err)
			continue
		}
		res.Dist(sec, "file")
		runDoc(d, d.Section, sec, false)
	}
	res.Done(sec)
}

func main() {
	args = vh.ParseArgs()
	res = vh.NewResult("C02", args)
	if args.Replay != "" {
		var d replayDoc
		if err := vh.ReadJSON(args.Replay, &d); err != nil {
			res.Fatal(args.Out, "replay: %v", err)
		}
		sec := res.Section(d.Section, "replay", "replay of one recorded input")
		runDoc(d, d.Section, sec, true)
		res.Done(sec)
		res.Write(args.Out)
		return
	}
	rng := vh.NewRng(args.Seed)
	if only := os.Getenv("C02_ONLY"); only == "race" {
		// development aid: the free-running section alone
		sectionRace(rng.Fork("race"))
		res.Write(args.Out)
		return
	} else if only == "hullrace" {
		// development aid: the hook-parked schedules alone, C02_ROUNDS times
		n, _ := strconv.Atoi(os.Getenv("C02_ROUNDS"))
		if n <= 0 {
			n = 1
		}
		for i := 0; i < n; i++ {
			sectionHullRace()
		}
		res.Write(args.Out)
		return
	}
	sectionCorpus()
	sectionTree(rng.Fork("tree"))
	sectionSelector(rng.Fork("selector"))
	sectionCIndex(rng.Fork("cindex"))
	sectionSystem(rng.Fork("system"))
	sectionHullRace()
	sectionCached(rng.Fork("cached"))
	sectionFlushRace(rng.Fork("flushrace"))
	if args.Thorough {
		sectionRace(rng.Fork("race"))
	}
	res.Write(args.Out)
}
