module verifharness

go 1.12

require (
	github.com/jrivets/log4g v0.0.0-20191016233753-c02c5046dc98
	github.com/logrange/linker v0.0.0-20190313060137-63e2b15b4d15
	github.com/logrange/logrange v0.0.0
	github.com/logrange/range v0.0.0-20210205081507-1d621ca07fd2
)

replace github.com/logrange/logrange => /repo
